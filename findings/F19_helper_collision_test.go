package main_test

import (
	. "gopkg.in/check.v1"

	update "github.com/snapcore/snapd/cmd/snap-update-ns"
	"github.com/snapcore/snapd/osutil"
)

type f19Suite struct{}

var _ = Suite(&f19Suite{})

// A mimic over /a keeps /a/b visible through a synthetic bind mount. A later
// revision of the snap adds a layout on /a/b itself. The new layout must be
// mounted.
func (s *f19Suite) TestNewLayoutAtPlaceOfKeptHelper(c *C) {
	mimic := osutil.MountEntry{Name: "tmpfs", Dir: "/a", Type: "tmpfs", Options: []string{osutil.XSnapdSynthetic(), osutil.XSnapdNeededBy("/a/new")}}
	helper := osutil.MountEntry{Name: "/tmp/.snap/a/b", Dir: "/a/b", Type: "none", Options: []string{"rbind", osutil.XSnapdSynthetic(), osutil.XSnapdNeededBy("/a/new")}}
	layoutNew := osutil.MountEntry{Name: "/snap/foo/1/new", Dir: "/a/new", Type: "none", Options: []string{"rbind", "rw", osutil.XSnapdOriginLayout()}}
	layoutB := osutil.MountEntry{Name: "/snap/foo/1/b", Dir: "/a/b", Type: "none", Options: []string{"rbind", "rw", osutil.XSnapdOriginLayout()}}

	current := &osutil.MountProfile{Entries: []osutil.MountEntry{mimic, helper, layoutNew}}
	desired := &osutil.MountProfile{Entries: []osutil.MountEntry{layoutNew, layoutB}}
	changes := update.NeededChanges(current, desired)
	mounted := false
	for _, chg := range changes {
		c.Logf("%s", chg)
		if chg.Action == update.Mount && chg.Entry.Dir == "/a/b" && chg.Entry.Name == "/snap/foo/1/b" {
			mounted = true
		}
	}
	c.Check(mounted, Equals, true, Commentf("the desired layout on /a/b is never mounted"))
}
