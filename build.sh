#!/bin/bash
# rebuild the checker
export GOFLAGS=-mod=mod GOPROXY=off GOSUMDB=off GOTOOLCHAIN=local GOWORK=off
cd /verif/checker && go build -o ../bin/snapverif . 
