#!/bin/bash
# rebuild, regenerate MANIFEST.json, run every quick check (rewrites evidence)
set -e
cd /verif && ./build.sh
./bin/snapverif manifest > MANIFEST.json.new && mv MANIFEST.json.new MANIFEST.json
rc=0
for p in $(./bin/snapverif list); do
  if [ -n "$1" ] && [ "$1" != "$p" ]; then continue; fi
  ./bin/snapverif check -p $p -tier quick | tail -1 || rc=1
done
exit $rc
