#!/usr/bin/env python3
"""Apply one textual mutant in memory (go/packages overlay; /repo is not touched)
and run a property check on it.

usage: mut.py <prop> <repo-relative-file> <old> <new> [tier]
Prints the violated obligations.  Exit 0 if the mutant was reported (check exit 1),
1 if it was missed, 2 if the mutant does not apply / does not type-check.
"""
import os, subprocess, sys, tempfile

def run(prop, path, old, new, tier="quick", repo="/repo", quiet=False):
    src = open(os.path.join(repo, path)).read()
    if src.count(old) < 1:
        return 2, "old text not found in %s" % path
    mutated = src.replace(old, new, 1)
    with tempfile.NamedTemporaryFile("w", suffix=".go", delete=False) as f:
        f.write(mutated)
        tmp = f.name
    try:
        here = os.path.dirname(os.path.dirname(os.path.abspath(__file__)))
        r = subprocess.run([os.path.join(here, "bin", "snapverif"), "check", "-p", prop, "-tier", tier,
                            "-repo", repo, "-noevidence", "-overlay", "%s=%s" % (path, tmp)],
                           capture_output=True, text=True)
    finally:
        os.unlink(tmp)
    out = r.stdout + r.stderr
    if "could not be decided" in out:
        return 2, out
    return (0 if r.returncode == 1 else 1), out

def save(entry):
    import json
    here = os.path.dirname(os.path.dirname(os.path.abspath(__file__)))
    path = os.path.join(here, "mutants", "corpus.json")
    corpus = json.load(open(path)) if os.path.exists(path) else []
    for e in corpus:
        if (e["prop"], e["file"], e["old"], e["new"]) == (entry["prop"], entry["file"], entry["old"], entry["new"]):
            e.update(entry)
            break
    else:
        corpus.append(entry)
    json.dump(corpus, open(path, "w"), indent=1)

if __name__ == "__main__":
    if len(sys.argv) < 5:
        print(__doc__); sys.exit(2)
    tier = sys.argv[5] if len(sys.argv) > 5 else "quick"
    code, out = run(sys.argv[1], sys.argv[2], sys.argv[3], sys.argv[4], tier)
    lines = [l for l in out.splitlines() if not l.startswith("VIOLATION") and "conda" not in l]
    print("\n".join(lines[:12]))
    print({0: "CAUGHT", 1: "MISSED", 2: "INVALID MUTANT"}[code])
    if code != 2 and os.environ.get("MUT_NOSAVE") is None:
        rules = sorted(set(__import__("re").findall(r"\[(C\d+-R\d+[a-z]?) ", out)))
        save({"prop": sys.argv[1], "file": sys.argv[2], "old": sys.argv[3], "new": sys.argv[4], "tier": tier,
              "kind": os.environ.get("MUT_KIND", "break"), "expect": "caught" if code == 0 else "missed", "rules": rules})
    sys.exit(code)
