#!/usr/bin/env python3-vt
import json, glob, sys, jsonschema
jsonschema.validate(json.load(open('/verif/MANIFEST.json')), json.load(open('/root/.vp/MANIFEST.schema.json')))
s = json.load(open('/root/.vp/EVIDENCE.schema.json'))
n = 0
for f in sorted(glob.glob('/verif/evidence/C*.json')):
    jsonschema.validate(json.load(open(f)), s); n += 1
m = json.load(open('/verif/MANIFEST.json'))
ids = {c['property_id'] for c in m['checks']} | {c['property_id'] for c in m.get('not_applicable', [])}
props = [json.loads(l)['id'] for l in open('/verif/properties.jsonl')]
missing = [p for p in props if p not in ids]
print('manifest ok; %d evidence files ok; claimed=%d not_applicable=%d unaccounted=%s' % (n, len(m['checks']), len(m.get('not_applicable', [])), missing))
sys.exit(1 if missing else 0)
