#!/usr/bin/env python3
"""Re-run the mutant corpus and every kept seeded change for the given properties.
usage: recheck.py C33 C34 ...   (prints only deviations from the recorded expectation)"""
import json, os, subprocess, sys, glob
here = os.path.dirname(os.path.dirname(os.path.abspath(__file__)))
TREE = os.environ.get("VERIF_TREE", "/repo")  # a scratch worktree can stand in for /repo
props = [p for a in sys.argv[1:] for p in a.split(",") if p]
if not props:
    print(__doc__); sys.exit(2)
selected = 0
bad = 0
corpus = json.load(open(os.path.join(here, "mutants", "corpus.json")))
for e in corpus:
    if e["prop"] not in props:
        continue
    selected += 1
    env = dict(os.environ, MUT_KIND=e["kind"], MUT_NOSAVE="1")
    r = subprocess.run(["python3", os.path.join(here, "tools", "mut.py"), e["prop"], e["file"], e["old"], e["new"]], capture_output=True, text=True, env=env)
    got = r.stdout.strip().splitlines()[-1]
    want = {"caught": "CAUGHT", "missed": "MISSED"}[e["expect"]]
    if got != want:
        bad += 1
        print("MUTANT %s %s: expected %s got %s :: %s" % (e["prop"], e["kind"], want, got, e["new"][:70].replace("\n", " ")))
for d in sorted(glob.glob(os.path.join(here, "seeded", "*"))):
    name = os.path.basename(d)
    prop = name.split("-")[0]
    if prop not in props:
        continue
    selected += 1
    meta = json.load(open(os.path.join(d, "meta.json")))
    want = sorted(meta.get("verification", {}).get("caught_by") or [])
    patch = os.path.join(d, "patch_rebased.diff") if os.path.exists(os.path.join(d, "patch_rebased.diff")) else os.path.join(d, "patch.diff")
    ok = False
    for cmd in ("git -C " + TREE + " apply %s", "git -C " + TREE + " apply -C1 %s", "cd " + TREE + " && patch -p1 -F3 --no-backup-if-mismatch < %s"):
        if subprocess.run(["bash", "-c", cmd % patch], capture_output=True).returncode == 0:
            ok = True
            break
        subprocess.run(["bash", "-c", "git -C " + TREE + " checkout -- ."])
    if not ok:
        print("SEED %s: patch does not apply" % name); bad += 1
        continue
    try:
        got = []
        for p in (want or [prop]):
            r = subprocess.run([os.path.join(here, "bin", "snapverif"), "check", "-p", p, "-tier", "quick", "-noevidence", "-repo", TREE], capture_output=True, text=True, cwd=here)
            if r.returncode == 1:
                got.append(p)
    finally:
        subprocess.run(["bash", "-c", "git -C " + TREE + " checkout -- ."])
    if sorted(got) != want:
        bad += 1
        print("SEED %s: recorded caught_by=%s now=%s" % (name, want, got))
print("recheck %s: %d case(s) replayed, %d deviation(s)" % (",".join(props), selected, bad))
if selected == 0:
    print("nothing selected: unknown property ids?"); sys.exit(2)
sys.exit(1 if bad else 0)
