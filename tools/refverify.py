#!/usr/bin/env python3
"""Run the quick checks on a behaviour-preserving refactoring delivered by a sub-agent
(/tmp/out4/<prop>/<k>/patch.diff): the checks must stay silent.

usage: refverify.py <prop> <k> [--props C01,C02] [--keep] [--round 2] [--tree /tmp/scratch-worktree]
 applies the patch to /repo, runs the registered quick check of the property (and any others
 named) with -noevidence, undoes the patch.  Prints one JSON line.  With --keep the case is copied
 to /verif/refactors/<prop>-<k>/ with the outcome recorded in meta.json; first.json remembers
 what the checks said the first time they saw the change.
"""
import json, os, re, shutil, subprocess, sys

ENV = dict(os.environ, GOFLAGS="-mod=mod", GOPROXY="off", GOSUMDB="off", GOTOOLCHAIN="local", GOWORK="off")

def sh(cmd, cwd=None):
    r = subprocess.run(["bash", "-c", cmd], cwd=cwd, env=ENV, capture_output=True, text=True)
    return r.returncode, r.stdout + r.stderr

def main():
    prop, k = sys.argv[1], sys.argv[2]
    args = sys.argv[3:]
    props = [prop]
    if "--props" in args:
        props = args[args.index("--props") + 1].split(",")
    rnd = args[args.index("--round") + 1] if "--round" in args else "1"
    tree = args[args.index("--tree") + 1] if "--tree" in args else "/repo"
    out = "/tmp/out%s/%s/%s" % ({"1": "4", "2": "5"}.get(rnd, rnd), prop, k)
    kept = "/verif/refactors/%s-%s%s" % (prop, "" if rnd == "1" else "r%s-" % rnd, k)
    if not os.path.exists(out + "/patch.diff") and os.path.exists(kept + "/patch.diff"):
        out = kept
    meta = json.load(open(out + "/meta.json")) if os.path.exists(out + "/meta.json") else {}
    res = {"prop": prop, "k": k, "kind": meta.get("kind"), "summary": (meta.get("summary") or "")[:200]}
    c, o = sh("git -C %s status --porcelain --untracked-files=no" % tree)
    if o.strip():
        res["error"] = tree + " is not clean"
        print(json.dumps(res)); return 1
    c, o = sh("git -C %s apply %s/patch.diff" % (tree, out))
    if c != 0:
        res["error"] = "patch does not apply: " + o[-300:]
        print(json.dumps(res)); return 1
    try:
        # the refactoring must at least build
        touched = sorted(set(os.path.dirname(m) for m in re.findall(r"^\+\+\+ b/(\S+)", open(out + "/patch.diff").read(), re.M)))
        res["touched"] = touched
        builds = {}
        for d in touched:
            if d.startswith("cmd/snap-update-ns") or d.startswith("cmd/snap-seccomp"):
                builds[d] = "cgo main, not built here"
                continue
            c, o = sh("go build ./%s/" % d, tree)
            builds[d] = "ok" if c == 0 else "FAIL: " + o[-300:]
        res["builds"] = builds
        checks = {}
        for p in props:
            c, o = sh("/verif/bin/snapverif check -p %s -tier quick -noevidence -repo %s" % (p, tree), "/verif")
            rep = [re.sub(r"\s+", " ", l)[:500] for l in o.splitlines() if "VIOLATED" in l or "UNDECIDED" in l]
            checks[p] = {"exit": c, "reports": rep[:8]}
        res["checks"] = checks
    finally:
        sh("git -C %s checkout -- ." % tree)
    res["alarms"] = [p for p, v in res["checks"].items() if v["exit"] != 0]
    ffile = out + "/first.json"
    if not os.path.exists(ffile):
        json.dump({"alarms_first_run": res["alarms"], "reports_first_run": {p: v["reports"] for p, v in res["checks"].items() if v["exit"] != 0}}, open(ffile, "w"), indent=1)
    res.update(json.load(open(ffile)))
    print(json.dumps(res, indent=1))
    if "--keep" in args:
        os.makedirs(kept, exist_ok=True)
        if out != kept:
            for f in os.listdir(out):
                if os.path.isfile(os.path.join(out, f)) and os.path.getsize(os.path.join(out, f)) < 200000:
                    shutil.copy(os.path.join(out, f), kept)
        meta["verification"] = {k2: res.get(k2) for k2 in ("builds", "alarms", "alarms_first_run", "reports_first_run", "checks")}
        meta["what_was_run"] = "tools/refverify.py %s %s: `git -C /repo apply`, go build of the touched packages, quick checks %s, `git -C /repo checkout -- .`" % (prop, k, ",".join(props))
        json.dump(meta, open(kept + "/meta.json", "w"), indent=1)
    return 0

if __name__ == "__main__":
    sys.exit(main())
