#!/usr/bin/env python3
"""Confirm a seeded change delivered by a sub-agent, then run the snapverif checks on it.

usage: seedverify.py <prop> <k> [--props C01,C02,...] [--skip-demo] [--demo-only] [--keep] [--round 2]

 1. in the scratch worktree /tmp/wt/<prop>: clean tree -> demo passes; patch applied -> demo
    fails; touched packages that are in the stable baseline still pass their own tests.
 2. apply the patch to /repo, run the registered quick checks (-noevidence) for the property
    (and any others named), undo it straight afterwards.
Prints one JSON line with the outcome; with --keep copies the case to /verif/seeded/<prop>-<k>/.
"""
import json, os, subprocess, sys, shutil, re

ENV = dict(os.environ, GOFLAGS="-mod=mod", GOPROXY="off", GOSUMDB="off", GOTOOLCHAIN="local", GOWORK="off")

def sh(cmd, cwd=None, timeout=3000):
    r = subprocess.run(["bash", "-c", cmd], cwd=cwd, env=ENV, capture_output=True, text=True, timeout=timeout)
    return r.returncode, (r.stdout + r.stderr)

def main():
    prop, k = sys.argv[1], sys.argv[2]
    args = sys.argv[3:]
    props = [prop]
    for i, a in enumerate(args):
        if a == "--props":
            props = args[i + 1].split(",")
    rnd = ""
    for i, a in enumerate(args):
        if a == "--round":
            rnd = args[i + 1]
    out = "/tmp/out%s/%s/%s" % (rnd if rnd != "1" else "", prop, k)
    wt = "/tmp/wt%s/%s" % (rnd if rnd != "1" else "", prop)
    meta = json.load(open(out + "/meta.json"))
    patch = out + "/patch.diff"
    res = {"prop": prop, "k": k, "summary": meta.get("summary", "")[:200]}
    stable = set(l.strip().split("::")[0] for l in open("/tmp/props/stable_pass.txt"))
    stable -= set(l.strip().split("::")[0] for l in open("/tmp/props/always_fail.txt"))
    touched = sorted(set(os.path.dirname(m) for m in re.findall(r"^\+\+\+ b/(\S+)", open(patch).read(), re.M)))
    res["touched"] = touched
    vfile = out + "/verify.json"
    if "--skip-demo" in args and os.path.exists(vfile):
        res.update(json.load(open(vfile)))
    if "--skip-demo" not in args:
        run = meta["demo"]["run"].replace("<repo>", wt).replace("<worktree>", wt).replace("<tree>", wt)
        demo_dst = meta["demo"].get("path_in_repo", "").split()[0] if meta["demo"].get("path_in_repo") else ""
        demo_src = [f for f in os.listdir(out) if f.endswith("_test.go") or f.endswith(".go")]
        if demo_dst and demo_dst.endswith(".go") and len(demo_src) == 1 and re.match(r"\s*cp \S+ \S+ && ", run) and "cd " not in run:
            run = re.sub(r"^\s*cp \S+ \S+ && ", "", run)  # the demo file is placed by place()
        cwd = out if re.search(r"(^|&&|;)\s*cd ", run) else wt
        def place():
            if demo_dst and demo_dst.endswith(".go") and len(demo_src) == 1:
                os.makedirs(os.path.dirname(os.path.join(wt, demo_dst)), exist_ok=True)
                shutil.copy(os.path.join(out, demo_src[0]), os.path.join(wt, demo_dst))
        wt_run = lambda: sh(run, cwd)
        sh("git checkout -q -- . && git clean -fdq", wt)
        place()
        c0, o0 = wt_run()
        res["demo_clean_exit"] = c0
        sh("git clean -fdq", wt)
        c, o = sh("git apply %s" % patch, wt)
        if c != 0:
            res["error"] = "patch does not apply to worktree: " + o[-300:]
            print(json.dumps(res)); return 1
        place()
        c1, o1 = wt_run()
        res["demo_patched_exit"] = c1
        res["demo_patched_tail"] = o1[-600:]
        sh("git clean -fdq", wt)
        # existing tests of touched stable packages, with the patch
        tests = {}
        for d in touched:
            pk = "github.com/snapcore/snapd/" + d
            if pk in stable and d.endswith(tuple("abcdefghijklmnopqrstuvwxyz0123456789")):
                c2, o2 = sh("go test -count=1 ./%s/ 2>&1 | tail -3" % d, wt)
                tests[d] = "ok" if ("ok " in o2 and "FAIL" not in o2) else "FAIL: " + o2[-300:]
            else:
                tests[d] = "not in stable baseline (package test binary fails offline on the unchanged tree)"
        res["existing_tests_patched"] = tests
        sh("git checkout -q -- . && git clean -fdq", wt)
        res["confirmed"] = (c0 == 0 and c1 != 0 and all(v == "ok" or v.startswith("not in") for v in tests.values()))
        json.dump({k2: res.get(k2) for k2 in ("demo_clean_exit", "demo_patched_exit", "demo_patched_tail", "existing_tests_patched", "confirmed")}, open(vfile, "w"), indent=1)
    if "--demo-only" in args:
        print(json.dumps(res)); return 0
    # run checks against /repo with the patch applied
    c, o = sh("git -C /repo status --porcelain --untracked-files=no")
    if o.strip():
        res["error"] = "/repo is not clean: " + o
        print(json.dumps(res)); return 1
    if os.path.exists(out + "/patch_rebased.diff"):
        # the original patch touches lines a fix: commit changed; an equivalent change was re-made on /repo's tree
        patch = out + "/patch_rebased.diff"
        res["applied_with"] = "patch_rebased.diff (same change re-made on top of the fix: commits)"
    c, o = sh("git -C /repo apply %s" % patch)
    if c != 0:
        # /repo carries the fix: commits, the patch was made against the pinned commit: retry with less context
        c, o2 = sh("git -C /repo apply -C1 %s" % patch)
        res["applied_with"] = "git apply -C1 (context reduced: /repo has fix commits on top of the pinned commit)"
        if c != 0:
            sh("git -C /repo checkout -- .")
            c, o3 = sh("cd /repo && patch -p1 -F3 --no-backup-if-mismatch < %s" % patch)
            res["applied_with"] = "patch -p1 -F3"
            if c != 0:
                sh("git -C /repo checkout -- . && git -C /repo clean -fdq -e tests/lib/muinstaller")
                res["error"] = "patch does not apply to /repo: " + o[-300:]
                print(json.dumps(res)); return 1
    try:
        checks = {}
        for p in props:
            c, o = sh("/verif/bin/snapverif check -p %s -tier quick -noevidence" % p, "/verif")
            viol = [l for l in o.splitlines() if "VIOLATED" in l or "UNDECIDED" in l]
            checks[p] = {"exit": c, "reports": [re.sub(r"\s+", " ", v)[:400] for v in viol[:6]]}
        res["checks"] = checks
    finally:
        sh("git -C /repo checkout -- .")
    res["caught_by"] = [p for p, v in res["checks"].items() if v["exit"] == 1]
    # remember what the checks said the very first time they saw this change (before any strengthening)
    ffile = out + "/first.json"
    if not os.path.exists(ffile):
        json.dump({"caught_by_first_run": [p + ("" if any("VIOLATED" in r for r in res["checks"][p]["reports"]) else " (undecided)") for p in res["caught_by"]]}, open(ffile, "w"))
    res["caught_by_first_run"] = json.load(open(ffile))["caught_by_first_run"]
    print(json.dumps(res, indent=1))
    if "--keep" in args:
        dst = "/verif/seeded/%s-%s%s" % (prop, ("r%s-" % rnd) if rnd not in ("", "1") else "", k)
        os.makedirs(dst, exist_ok=True)
        for f in os.listdir(out):
            if os.path.isfile(os.path.join(out, f)) and os.path.getsize(os.path.join(out, f)) < 200000:
                shutil.copy(os.path.join(out, f), dst)
        meta["verification"] = {k2: res.get(k2) for k2 in ("demo_clean_exit", "demo_patched_exit", "existing_tests_patched", "confirmed", "caught_by", "caught_by_first_run", "checks", "applied_with")}
        meta["what_was_run"] = "tools/seedverify.py %s %s: demo on clean worktree (exit %s), demo with patch (exit %s), existing tests of touched stable packages with patch, then `git -C /repo apply`, quick checks %s, `git -C /repo checkout -- .`" % (prop, k, res.get("demo_clean_exit"), res.get("demo_patched_exit"), ",".join(props))
        json.dump(meta, open(dst + "/meta.json", "w"), indent=1)
    return 0

if __name__ == "__main__":
    sys.exit(main())
