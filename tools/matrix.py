#!/usr/bin/env python3
"""Apply every kept seeded change to /repo in turn, run the quick checks named for it and record
which rules report it.  Writes /verif/seeded/MATRIX.json and prints a summary.

usage: matrix.py [--only C01,C02]   (never leaves /repo modified)
"""
import glob, json, os, re, subprocess, sys

here = os.path.dirname(os.path.dirname(os.path.abspath(__file__)))
only = None
if "--only" in sys.argv:
    only = set(sys.argv[sys.argv.index("--only") + 1].split(","))

def sh(cmd):
    r = subprocess.run(["bash", "-c", cmd], capture_output=True, text=True)
    return r.returncode, r.stdout + r.stderr

c, o = sh("git -C /repo status --porcelain --untracked-files=no")
if o.strip():
    print("/repo is not clean"); sys.exit(2)

out_path = os.path.join(here, "seeded", "MATRIX.json")
matrix = json.load(open(out_path)) if os.path.exists(out_path) else {}
for d in sorted(glob.glob(os.path.join(here, "seeded", "C*"))):
    name = os.path.basename(d)
    prop = name.split("-")[0]
    if only and prop not in only:
        continue
    meta = json.load(open(os.path.join(d, "meta.json")))
    ver = meta.get("verification", {})
    props = sorted(set([prop] + [p.split()[0] for p in (ver.get("caught_by") or [])]))
    patch = os.path.join(d, "patch_rebased.diff")
    if not os.path.exists(patch):
        patch = os.path.join(d, "patch.diff")
    applied = False
    for cmd in ("git -C /repo apply %s", "git -C /repo apply -C1 %s", "cd /repo && patch -p1 -F3 --no-backup-if-mismatch < %s"):
        if sh(cmd % patch)[0] == 0:
            applied = True
            break
        sh("git -C /repo checkout -- .")
    entry = {"property": prop, "summary": (meta.get("summary") or "")[:300], "caught_by": {}, "first_run": ver.get("caught_by_first_run")}
    if not applied:
        entry["error"] = "patch does not apply"
    else:
        try:
            for p in props:
                c, o = sh("cd %s && ./bin/snapverif check -p %s -tier quick -noevidence" % (here, p))
                if c == 1:
                    rules = {}
                    for kind, rule in re.findall(r": (VIOLATED|UNDECIDED) \[(\S+) ", o):
                        rules.setdefault(rule, kind.lower())
                    entry["caught_by"][p] = rules
        finally:
            sh("git -C /repo checkout -- .")
    matrix[name] = entry
    print(name, {p: sorted(r) for p, r in entry["caught_by"].items()} or "MISSED", flush=True)
json.dump(matrix, open(out_path, "w"), indent=1, sort_keys=True)
missed = [n for n, e in matrix.items() if not e["caught_by"]]
print("%d seeded changes, %d reported, %d not reported: %s" % (len(matrix), len(matrix) - len(missed), len(missed), missed))
